#!/usr/bin/env python3
"""Regenerate /verif/seeded/INDEX.md from the meta.json files."""
import glob
import json
import os

ROOT = os.path.dirname(os.path.dirname(os.path.abspath(__file__)))


def main():
    rows = []
    for d in sorted(glob.glob(os.path.join(ROOT, 'seeded', 'C*'))):
        try:
            m = json.load(open(os.path.join(d, 'meta.json')))
        except Exception:
            continue
        own = m['checks_detecting'].get(m['property'], [])
        rule = own[0].split(' :: ')[0] if own else '**missed**'
        rows.append((os.path.basename(d), m.get('summary', '').replace('|', '/').replace('\n', ' ')[:160],
                     m.get('needs', '').replace('|', '/').replace('\n', ' ')[:120], rule,
                     ', '.join(sorted(m['checks_detecting']))))
    with open(os.path.join(ROOT, 'seeded', 'INDEX.md'), 'w') as f:
        f.write('# Seeded changes (independent sub-agents), confirmed and checked\n\n')
        f.write('Each row: a change to benburrill/halt_is_defeat that breaks the named property while the 45 pinned tests '
                'still pass; confirmed in a scratch worktree (tests unchanged, demo.py exits 1 with the change and 0 without); '
                'never committed to /repo.  "rule" is the first rule of the property\'s own check that reports it.\n\n')
        f.write('| id | change | needs | rule that reports it | all checks that report it |\n|---|---|---|---|---|\n')
        for r in rows:
            f.write('| %s | %s | %s | %s | %s |\n' % r)
        f.write(f'\n{len(rows)} changes; {sum(1 for r in rows if r[3] != "**missed**")} reported by the check of their own property.\n')
    print('wrote seeded/INDEX.md', len(rows))


if __name__ == '__main__':
    main()
