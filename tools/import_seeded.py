#!/usr/bin/env python3
"""Confirm and import seeded changes produced by independent sub-agents.

usage: import_seeded.py <src-root> [--only C03/1,C05/2] [--round N]
For each <src-root>/Cxx/N/{patch.diff,demo.py,meta.json}:
  1. scratch worktree of /repo HEAD under $TMPDIR; `git apply patch.diff`
  2. the pinned test suite must still give 45 passed (+1 collection error)
  3. demo.py must exit 1 on the patched tree and 0 on /repo
  4. every registered check is run on the patched tree (HIDVERIF_REPO); detections recorded
  5. files are copied to /verif/seeded/<Cxx>-r<round>-<N>/ with a meta.json saying what was run
The worktree and its build output are removed afterwards.  Nothing is applied to /repo.
"""
import glob
import json
import os
import re
import shutil
import subprocess
import sys
import tempfile

VERIF = os.path.dirname(os.path.dirname(os.path.abspath(__file__)))
PY = '/venv/bin/python'


def sh(cmd, cwd=None, env=None, timeout=int(os.environ.get('HIDVERIF_IMPORT_TIMEOUT', '600'))):
    r = subprocess.run(cmd, cwd=cwd, env=env, capture_output=True, text=True, timeout=timeout)
    return r.returncode, r.stdout + r.stderr


def built():
    return sorted(os.path.basename(p)[:-3].upper() for p in glob.glob(os.path.join(VERIF, 'hidverif/checks/c*.py')))


def main():
    root = sys.argv[1]
    only = None
    rnd = '1'
    if '--only' in sys.argv:
        only = set(sys.argv[sys.argv.index('--only') + 1].split(','))
    if '--round' in sys.argv:
        rnd = sys.argv[sys.argv.index('--round') + 1]
    head = sh(['git', '-C', '/repo', 'rev-parse', '--short', 'HEAD'])[1].strip()
    for patch in sorted(glob.glob(os.path.join(root, 'C*', '*', 'patch.diff'))):
        d = os.path.dirname(patch)
        prop, n = d.split(os.sep)[-2:]
        if only and f'{prop}/{n}' not in only:
            continue
        name = f'{prop}-r{rnd}-{n}'
        wt = tempfile.mkdtemp(prefix='hidverif-wt-')
        os.rmdir(wt)
        try:
            rc, out = sh(['git', '-C', '/repo', 'worktree', 'add', '-q', '--detach', wt, 'HEAD'])
            if rc:
                print(name, 'worktree failed', out[:200])
                continue
            rc, out = sh(['git', 'apply', patch], cwd=wt)
            if rc:
                print(f'{name}: PATCH DOES NOT APPLY to {head}: {out.strip()[:160]}')
                continue
            rc, out = sh([PY, '-m', 'pytest', '-q', '-p', 'no:cacheprovider', '--continue-on-collection-errors'], cwd=wt)
            m = re.search(r'(\d+) passed', out)
            passed = int(m.group(1)) if m else 0
            errs = re.search(r'(\d+) error', out)
            failed = re.search(r'(\d+) failed', out)
            tests_ok = passed == 45 and not failed and (errs and errs.group(1) == '1')
            demo_src = open(os.path.join(d, 'demo.py')).read().replace('/tmp/sphinx_emu', '/verif/tools/sphinx_emu')
            demo_tmp = os.path.join(wt, '_demo.py')
            open(demo_tmp, 'w').write(demo_src)
            rc_mut, out_mut = sh([PY, demo_tmp, wt], cwd=wt)
            rc_clean, out_clean = sh([PY, demo_tmp, '/repo'], cwd='/tmp')
            os.remove(demo_tmp)
            det = {}
            for p in built():
                env = dict(os.environ, HIDVERIF_REPO=wt, HIDVERIF_EVIDENCE_DIR=os.path.join(wt, '.ev'))
                rc, out = sh([PY, '-m', 'hidverif', 'check', p], cwd=VERIF, env=env)
                rules = sorted(set(re.findall(r'rule=(\S+) construct=(.*?) (?:hidc/|README|$)', out)))
                if rc == 1:
                    det[p] = [f'{r} :: {c}' for r, c in rules][:4]
                elif rc != 0:
                    det[p] = ['ANALYSIS-ERROR ' + out.strip().splitlines()[-1][:120]]
            confirmed = tests_ok and rc_mut == 1 and rc_clean == 0
            status = 'CONFIRMED' if confirmed else 'REJECTED'
            print(f'{name}: {status} tests_ok={tests_ok}({passed}) demo mutated={rc_mut} clean={rc_clean} '
                  f'own={"DETECTED" if prop in det else "missed"} by={sorted(det)}')
            if not confirmed:
                print('   ', (out_mut if rc_mut != 1 else out_clean).strip()[-300:])
                continue
            dst = os.path.join(VERIF, 'seeded', name)
            os.makedirs(dst, exist_ok=True)
            shutil.copy(patch, os.path.join(dst, 'patch.diff'))
            open(os.path.join(dst, 'demo.py'), 'w').write(demo_src)
            meta = {}
            try:
                meta = json.load(open(os.path.join(d, 'meta.json')))
            except Exception:
                pass
            meta.update({
                'property': prop,
                'source': f'independent sub-agent, round {rnd} (given only the property text and a scratch worktree)',
                'base_commit': head,
                'confirmed_by': {
                    'apply': f'git apply patch.diff in a scratch worktree of /repo at {head}',
                    'tests': f'{PY} -m pytest -q -p no:cacheprovider --continue-on-collection-errors -> {passed} passed, 1 collection error (unchanged)',
                    'demo_on_patched_tree_exit': rc_mut,
                    'demo_on_unchanged_repo_exit': rc_clean,
                    'demo_output_tail': out_mut.strip()[-400:],
                    'demo_cmd': f'{PY} demo.py <hidc source root>   (uses /verif/tools/sphinx_emu as Sphinx emulator)',
                },
                'checks_detecting': det,
                'detected_by_own_property_check': prop in det,
            })
            json.dump(meta, open(os.path.join(dst, 'meta.json'), 'w'), indent=1)
        finally:
            sh(['git', '-C', '/repo', 'worktree', 'remove', '--force', wt])
            shutil.rmtree(wt, ignore_errors=True)


if __name__ == '__main__':
    main()
