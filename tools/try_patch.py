#!/usr/bin/env python3
"""Developer aid: apply a patch file to a scratch copy of /repo/hidc and run the named checks on it.

usage: try_patch.py <patch.diff> <props,comma> [--tier thorough]
Prints the violation lines of each check.  The scratch copy lives under $TMPDIR and is removed.
"""
import os
import shutil
import subprocess
import sys
import tempfile
from concurrent.futures import ThreadPoolExecutor


def main():
    patch, props = sys.argv[1:3]
    extra = sys.argv[3:]
    d = tempfile.mkdtemp(prefix='hidverif-patch-')
    try:
        shutil.copytree('/repo/hidc', os.path.join(d, 'hidc'))
        r = subprocess.run(['patch', '-p1', '-s', '-i', os.path.abspath(patch)], cwd=d, capture_output=True, text=True)
        if r.returncode != 0:
            print('apply FAILED', r.stdout, r.stderr)
            return 3

        def one(prop):
            env = dict(os.environ, HIDVERIF_REPO=d, HIDVERIF_EVIDENCE_DIR=os.path.join(d, 'evidence', prop))
            r = subprocess.run(['/venv/bin/python', '-m', 'hidverif', 'check', prop] + extra, cwd='/verif', env=env,
                               capture_output=True, text=True)
            lines = [l for l in r.stdout.splitlines() if l.startswith(('VIOLATION', '  rule=', 'ANALYSIS', 'KNOWN'))]
            return prop, r.returncode, lines, r.stderr[-400:] if r.returncode not in (0, 1) else ''

        with ThreadPoolExecutor(max_workers=14) as ex:
            for prop, rc, lines, err in ex.map(one, props.split(',')):
                print(f'== {prop} exit={rc}')
                for l in lines[:12]:
                    print('   ', l[:260])
                if err:
                    print(err)
    finally:
        shutil.rmtree(d, ignore_errors=True)


if __name__ == '__main__':
    sys.exit(main() or 0)
